"""Parser for the text form of rustc MIR (`-Zunpretty=mir`).

Produces, per function: argument count, local types, debug names, basic blocks with parsed statements and
terminators.  Also extracts `allocN (static: NAME, size: ..)` hex dumps (the compiled static tables).
Only the constructs that occur in lexpr / serde-lexpr are supported; anything else parses to ('unsupported', text)
and makes a claim inconclusive when executed.
"""
import re


class Fn:
    def __init__(self, name, header):
        self.name = name
        self.header = header
        self.args = []          # local numbers
        self.ret_ty = None
        self.local_ty = {}      # n -> type string
        self.debug = {}         # name -> place text (first occurrence wins per scope order)
        self.debug_all = []     # (name, place text)
        self.blocks = {}        # n -> Block
        self.promoted = {}

    def local_by_debug(self, name, nth=0):
        xs = [p for (n, p) in self.debug_all if n == name]
        if not xs:
            return None
        p = xs[min(nth, len(xs) - 1)]
        m = re.fullmatch(r"_(\d+)", p)
        return int(m.group(1)) if m else None


class Block:
    def __init__(self, n):
        self.n = n
        self.stmts = []
        self.term = None
        self.cleanup = False


# ----------------------------------------------------------------------------- tokenising helpers

def split_top(s, sep=","):
    """split on sep at nesting depth 0 (parens, brackets, braces, angle brackets in types, string literals)."""
    out, cur, depth, i = [], [], 0, 0
    instr = None
    while i < len(s):
        c = s[i]
        if instr:
            cur.append(c)
            if c == "\\":
                cur.append(s[i + 1])
                i += 1
            elif c == instr:
                instr = None
        elif c in "\"":
            instr = c
            cur.append(c)
        elif c in "([{":
            depth += 1
            cur.append(c)
        elif c in ")]}":
            depth -= 1
            cur.append(c)
        elif c == "<" and (i == 0 or s[i - 1] not in " -="):
            depth += 1
            cur.append(c)
        elif c == "<" and i + 1 < len(s) and (s[i + 1].isalpha() or s[i + 1] in "&[(*_"):
            depth += 1
            cur.append(c)
        elif c == ">" and i > 0 and s[i - 1] in "-=":
            cur.append(c)
        elif c == ">" and depth > 0:
            depth -= 1
            cur.append(c)
        elif c == sep and depth == 0:
            out.append("".join(cur).strip())
            cur = []
        else:
            cur.append(c)
        i += 1
    last = "".join(cur).strip()
    if last:
        out.append(last)
    return out


def find_matching(s, i):
    """s[i] is an opening bracket; return index of its match."""
    pairs = {"(": ")", "[": "]", "{": "}"}
    o = s[i]
    c = pairs[o]
    depth = 0
    j = i
    instr = False
    while j < len(s):
        ch = s[j]
        if instr:
            if ch == "\\":
                j += 1
            elif ch == '"':
                instr = False
        elif ch == '"':
            instr = True
        elif ch == o:
            depth += 1
        elif ch == c:
            depth -= 1
            if depth == 0:
                return j
        j += 1
    raise ValueError("unbalanced: " + s)


# ----------------------------------------------------------------------------- places

def parse_place(s):
    """-> ('local', n) | ('deref', P) | ('field', P, idx, ty) | ('downcast', P, variant) | ('index', P, local)
          | ('constindex', P, i) | ('static', text)"""
    s = s.strip()
    m = re.fullmatch(r"_(\d+)", s)
    if m:
        return ("local", int(m.group(1)))
    if s.startswith("(*") and find_matching(s, 0) == len(s) - 1:
        return ("deref", parse_place(s[2:-1]))
    if s.startswith("("):
        j = find_matching(s, 0)
        if j == len(s) - 1:
            inner = s[1:-1]
            # (P as Variant)
            m = re.fullmatch(r"(.*) as ([A-Za-z_][A-Za-z0-9_]*)", inner, flags=re.S)
            if m and balanced(m.group(1)):
                return ("downcast", parse_place(m.group(1)), m.group(2))
            # (P.N: TYPE)
            k = field_split(inner)
            if k is not None:
                base, idx, ty = k
                return ("field", parse_place(base), idx, ty)
            return parse_place(inner)
        # (...)[...] index
        rest = s[j + 1:]
        base = parse_place(s[:j + 1])
        return parse_index_suffix(base, rest)
    m = re.match(r"(_\d+)(\[.*)$", s)
    if m:
        return parse_index_suffix(parse_place(m.group(1)), m.group(2))
    m = re.fullmatch(r"(_\d+)\.(\d+)", s)
    if m:
        return ("field", parse_place(m.group(1)), int(m.group(2)), None)
    raise ValueError("place? " + s)


def parse_index_suffix(base, rest):
    while rest:
        assert rest[0] == "[", rest
        j = find_matching(rest, 0)
        inner = rest[1:j]
        m = re.fullmatch(r"_(\d+)", inner)
        if m:
            base = ("index", base, int(m.group(1)))
        else:
            m = re.fullmatch(r"(\d+) of (\d+)", inner)
            if m:
                base = ("constindex", base, int(m.group(1)))
            else:
                raise ValueError("index? " + rest)
        rest = rest[j + 1:]
    return base


def balanced(s):
    d = 0
    for c in s:
        if c in "([{":
            d += 1
        elif c in ")]}":
            d -= 1
            if d < 0:
                return False
    return d == 0


def field_split(inner):
    """inner = 'P.N: TYPE' with P possibly parenthesised -> (P, N, TYPE)"""
    # find the base end
    if inner.startswith("("):
        j = find_matching(inner, 0)
        rest = inner[j + 1:]
        base = inner[:j + 1]
    else:
        m = re.match(r"_\d+", inner)
        if not m:
            return None
        base = m.group(0)
        rest = inner[m.end():]
    m = re.match(r"\.(\d+): (.*)$", rest, flags=re.S)
    if not m:
        # chained e.g. ((*_1).3: T).1: U  is printed with parens, so not needed
        return None
    return base, int(m.group(1)), m.group(2).strip()


# ----------------------------------------------------------------------------- operands / rvalues

BINOPS = {"Add", "Sub", "Mul", "Div", "Rem", "BitAnd", "BitOr", "BitXor", "Shl", "Shr", "Eq", "Ne", "Lt", "Le",
          "Gt", "Ge", "AddWithOverflow", "SubWithOverflow", "MulWithOverflow", "AddUnchecked", "SubUnchecked",
          "MulUnchecked", "ShlUnchecked", "ShrUnchecked", "Offset", "Cmp"}
UNOPS = {"Not", "Neg", "PtrMetadata"}


def parse_operand(s):
    s = s.strip()
    if s.startswith("copy "):
        return ("copy", parse_place(s[5:]))
    if s.startswith("move "):
        return ("move", parse_place(s[5:]))
    if s.startswith("const "):
        return ("const", s[6:].strip())
    if s.startswith("no_retag "):
        return parse_operand(s[len("no_retag "):])
    return ("fnitem", s)


def parse_rvalue(s):
    s = s.strip()
    if s.startswith("no_retag "):
        s = s[len("no_retag "):]
    if s.startswith(("copy ", "move ", "const ")):
        # maybe a cast:  OP as TYPE (Kind)
        m = re.fullmatch(r"(.*) as (.*) \(([A-Za-z]+(?:\(.*\))?)\)", s, flags=re.S)
        if m and balanced(m.group(1)):
            return ("cast", parse_operand(m.group(1)), m.group(2).strip(), m.group(3))
        return ("use", parse_operand(s))
    m = re.match(r"([A-Za-z]+)\(", s)
    if m and m.group(1) in BINOPS and find_matching(s, m.end() - 1) == len(s) - 1:
        a = split_top(s[m.end():-1])
        return ("binop", m.group(1), parse_operand(a[0]), parse_operand(a[1]))
    if m and m.group(1) in UNOPS and find_matching(s, m.end() - 1) == len(s) - 1:
        return ("unop", m.group(1), parse_operand(s[m.end():-1]))
    if s.startswith("discriminant(") and s.endswith(")"):
        return ("discr", parse_place(s[len("discriminant("):-1]))
    if s.startswith("Len(") and s.endswith(")"):
        return ("len", parse_place(s[4:-1]))
    if s.startswith("CopyForDeref(") and s.endswith(")"):
        return ("use", ("copy", parse_place(s[len("CopyForDeref("):-1])))
    if s.startswith("&raw const (fake) "):
        return ("ref", parse_place(s[len("&raw const (fake) "):]))
    if s.startswith("&raw const ") or s.startswith("&raw mut "):
        return ("ref", parse_place(s.split(" ", 2)[2]), s.startswith("&raw mut "))
    if s.startswith("&mut "):
        return ("ref", parse_place(s[5:]), True)
    if s.startswith("&"):
        t = s[1:].strip()
        if t.startswith("fake shallow "):
            t = t[len("fake shallow "):]
        return ("ref", parse_place(t))
    if s.startswith("(") and find_matching(s, 0) == len(s) - 1:
        items = split_top(s[1:-1])
        if len(items) == 1 and not s[1:-1].strip().endswith(","):
            # parenthesised place?  treat as tuple of one only with trailing comma
            try:
                return ("use", ("copy", parse_place(s)))
            except ValueError:
                pass
        return ("tuple", [parse_operand(x) for x in items])
    if s.startswith("[") and find_matching(s, 0) == len(s) - 1:
        inner = s[1:-1]
        m2 = re.fullmatch(r"(.*); (\d+)", inner, flags=re.S)
        if m2 and balanced(m2.group(1)):
            return ("repeat", parse_operand(m2.group(1)), int(m2.group(2)))
        return ("array", [parse_operand(x) for x in split_top(inner)])
    if s.startswith("{closure@"):
        j = find_matching(s, 0)
        tag = s[:j + 1]
        rest = s[j + 1:].strip()
        fields = []
        if rest.startswith("{") and rest.endswith("}"):
            for item in split_top(rest[1:-1]):
                if ":" in item:
                    k, v = item.split(":", 1)
                    fields.append((k.strip(), parse_operand(v)))
        return ("closure", tag, fields)
    # Struct { f: op, ... }
    m = re.fullmatch(r"([^\s{(]+(?:<.*>)?)\s*\{(.*)\}", s, flags=re.S)
    if m and "::" not in m.group(2)[:0]:
        fields = []
        for item in split_top(m.group(2)):
            k, v = item.split(":", 1)
            fields.append((k.strip(), parse_operand(v)))
        return ("struct", m.group(1), fields)
    # Path::Variant(args) / Path::Variant / Struct(args)
    if s.endswith(")"):
        try:
            k = match_open_from_end(s)
        except ValueError:
            k = -1
        if k > 0 and looks_like_path(s[:k]):
            return ("adt", s[:k].strip(), [parse_operand(x) for x in split_top(s[k + 1:-1])])
    if looks_like_path(s):
        return ("adt", s, [])
    return ("unsupported", s)


def looks_like_path(s):
    return re.fullmatch(r"[A-Za-z_<][A-Za-z0-9_:<>,&' \[\]\(\);]*", s) is not None and not s.startswith(("copy ", "move "))


# ----------------------------------------------------------------------------- statements / terminators

def parse_stmt(s):
    s = s.strip().rstrip(";")
    if re.match(r"(StorageLive|StorageDead|FakeRead|PlaceMention|AscribeUserType|Retag|Coverage|ConstEvalCounter|nop|BackwardIncompatibleDropHint)\b", s):
        return ("nop",)
    m = re.fullmatch(r"Deinit\((.*)\)", s)
    if m:
        return ("nop",)
    if " = &fake " in s:
        return ("nop",)      # fake borrows for match guards: no runtime effect
    m = re.fullmatch(r"discriminant\((.*)\) = (\d+)", s)
    if m:
        return ("setdiscr", parse_place(m.group(1)), int(m.group(2)))
    m = re.match(r"assume\((.*)\)$", s)
    if m:
        return ("assume", parse_operand(m.group(1)))
    i = find_assign(s)
    if i is None:
        return ("unsupported", s)
    try:
        return ("assign", parse_place(s[:i]), parse_rvalue(s[i + 3:]))
    except ValueError as e:
        return ("unsupported", s + "  [" + str(e) + "]")


def find_assign(s):
    depth = 0
    for i, c in enumerate(s):
        if c in "([{":
            depth += 1
        elif c in ")]}":
            depth -= 1
        elif depth == 0 and s.startswith(" = ", i):
            return i
    return None


def parse_targets(s):
    """'[return: bb1, unwind continue]' / '[success: bb16, unwind continue]' / '[0: bb5, 1: bb6, otherwise: bb4]'"""
    out = {}
    for item in split_top(s.strip()[1:-1]):
        if ":" in item:
            k, v = item.split(":", 1)
            m = re.match(r"\s*bb(\d+)", v)
            out[k.strip()] = int(m.group(1)) if m else v.strip()
        else:
            out[item.strip()] = None
    return out


def parse_term(s):
    s = s.strip().rstrip(";")
    if s == "return":
        return ("return",)
    if s == "unreachable":
        return ("unreachable",)
    if s.startswith("resume") or s.startswith("terminate") or s.startswith("unwind"):
        return ("resume",)
    m = re.fullmatch(r"goto -> bb(\d+)", s)
    if m:
        return ("goto", int(m.group(1)))
    if s.startswith("switchInt("):
        j = find_matching(s, len("switchInt"))
        op = parse_operand(s[len("switchInt("):j])
        t = parse_targets(s[j + 1:].strip()[2:].strip())
        tg = []
        other = None
        for k, v in t.items():
            if k == "otherwise":
                other = v
            else:
                tg.append((int(k), v))
        return ("switch", op, tg, other)
    if s.startswith("assert("):
        j = find_matching(s, len("assert"))
        inner = split_top(s[len("assert("):j])
        cond = inner[0]
        neg = False
        if cond.startswith("!"):
            neg = True
            cond = cond[1:]
        t = parse_targets(s[j + 1:].strip()[2:].strip())
        return ("assert", parse_operand(cond), neg, inner[1] if len(inner) > 1 else "", t.get("success"))
    if s.startswith("drop("):
        j = find_matching(s, len("drop"))
        t = parse_targets(s[j + 1:].strip()[2:].strip())
        return ("drop", parse_place(s[5:j]), t.get("return"))
    # call:  DEST = CALLEE(args) -> [return: bbN, unwind ...]   |   ... -> bbN  (diverging call, cleanup target only)
    m = re.search(r" -> (\[.*\]|unwind .*|bb\d+)$", s)
    if m:
        tg = parse_targets(m.group(1)) if m.group(1).startswith("[") else {}
        body = s[:m.start()]
        i = find_assign(body)
        dest = None
        if i is not None:
            dest = parse_place(body[:i])
            body = body[i + 3:]
        body = body.strip()
        # callee(args): last top-level paren group
        assert body.endswith(")"), s
        k = match_open_from_end(body)
        callee = body[:k].strip()
        args = [parse_operand(x) for x in split_top(body[k + 1:-1])]
        return ("call", dest, callee, args, tg.get("return"))
    return ("unsupported", s)


def match_open_from_end(s):
    depth = 0
    i = len(s) - 1
    instr = False
    while i >= 0:
        c = s[i]
        if instr:
            if c == '"' and (i == 0 or s[i - 1] != "\\"):
                instr = False
        elif c == '"':
            instr = True
        elif c == ")":
            depth += 1
        elif c == "(":
            depth -= 1
            if depth == 0:
                return i
        i -= 1
    raise ValueError(s)


# ----------------------------------------------------------------------------- whole file

FN_RE = re.compile(r"^fn (.+?)\((.*)\) -> (.+) \{\s*$")
FN_RE_UNIT = re.compile(r"^fn (.+?)\((.*)\) \{\s*$")


PROMOTED = {}


def parse_promoted(text):
    """`const <path>::<fn>::promoted[N]: T = { ... _1 = RHS; _0 = &_1; ...}` -> {'<fn>::promoted[N]': 'RHS'}"""
    out = {}
    for m in re.finditer(r"^const ([^\n]+?)::promoted\[(\d+)\]: ([^=\n]+) = \{\n(.*?)^\}", text, flags=re.M | re.S):
        fnname = m.group(1).split("::")[-1]
        body = m.group(4)
        mm = re.search(r"_1 = (.*?)(?: -> \[.*\])?;", body)
        out["%s::promoted[%s]" % (fnname, m.group(2))] = mm.group(1).strip() if mm else None
    return out


def parse_mir(text):
    fns = {}
    statics = {}
    static_types = {}
    PROMOTED.clear()
    PROMOTED.update(parse_promoted(text))
    lines = text.split("\n")
    i = 0
    n = len(lines)
    while i < n:
        ln = lines[i]
        if ln.startswith("fn "):
            m = FN_RE.match(ln)
            ret = None
            if m:
                name, args, ret = m.group(1), m.group(2), m.group(3)
            else:
                m = FN_RE_UNIT.match(ln)
                if not m:
                    i += 1
                    continue
                name, args, ret = m.group(1), m.group(2), "()"
            f = Fn(name, ln)
            f.ret_ty = ret
            for a in split_top(args):
                mm = re.match(r"_(\d+): (.*)", a, flags=re.S)
                if mm:
                    f.args.append(int(mm.group(1)))
                    f.local_ty[int(mm.group(1))] = mm.group(2).strip()
            i += 1
            cur = None
            while i < n and lines[i] != "}":
                s = lines[i].strip()
                if cur is None:
                    mm = re.match(r"let (?:mut )?_(\d+): (.*);", s)
                    if mm:
                        f.local_ty[int(mm.group(1))] = mm.group(2)
                    mm = re.match(r"debug (\S+) => (.*);", s)
                    if mm:
                        f.debug.setdefault(mm.group(1), mm.group(2))
                        f.debug_all.append((mm.group(1), mm.group(2)))
                mm = re.match(r"bb(\d+)( \(cleanup\))?: \{", s)
                if mm:
                    cur = Block(int(mm.group(1)))
                    cur.cleanup = bool(mm.group(2))
                    f.blocks[cur.n] = cur
                    i += 1
                    body = []
                    while lines[i].strip() != "}":
                        body.append(lines[i].strip())
                        i += 1
                    # last non-empty line is the terminator
                    body = [b for b in body if b and not b.startswith("//")]
                    # strip trailing '// ...' comments
                    body = [re.sub(r"\s+// .*$", "", b) for b in body]
                    if body:
                        for b in body[:-1]:
                            try:
                                cur.stmts.append((parse_stmt(b), b))
                            except Exception as e:  # noqa
                                cur.stmts.append((("unsupported", b + " [" + repr(e) + "]"), b))
                        try:
                            cur.term = (parse_term(body[-1]), body[-1])
                        except Exception as e:  # noqa
                            cur.term = (("unsupported", body[-1] + " [" + repr(e) + "]"), body[-1])
                    cur = "done"
                i += 1
            # keep the first definition of a name (generic duplicates are identical)
            key = f.name
            if key in fns:
                k = 2
                while "%s#%d" % (key, k) in fns:
                    k += 1
                key = "%s#%d" % (key, k)
            fns[key] = f
        else:
            ms = re.match(r"^static (?:mut )?([A-Za-z_][A-Za-z0-9_:]*): \[(\w+); (\d+)\]", ln)
            if ms:
                static_types[ms.group(1).split("::")[-1]] = (ms.group(2), int(ms.group(3)))
            m = re.match(r"^(alloc\d+) \((?:static: ([^,]+), )?size: (\d+), align: (\d+)\) \{", ln)
            if m:
                aid, sname, size = m.group(1), m.group(2) or m.group(1), int(m.group(3))
                data = bytearray()
                relocs = False
                ptr = None
                if ln.rstrip().endswith("{}"):
                    statics[sname] = {"alloc": aid, "size": size, "bytes": b"", "raw": b"", "ptr": None}
                    statics[aid] = statics[sname]
                    i += 1
                    continue
                i += 1
                while i < n and not lines[i].startswith("}"):
                    body = lines[i]
                    t = body.strip()
                    if t.startswith("0x") and "│" in t:
                        t = t.split("│", 1)[1]
                    if "│" in t:
                        t = t.split("│", 1)[0]
                        for tok in t.split():
                            if re.fullmatch(r"[0-9a-f]{2}", tok):
                                data.append(int(tok, 16))
                            elif tok.startswith("__") or tok == "░░":
                                data.append(0)
                            else:
                                relocs = True
                                mp = re.search(r"(alloc\d+)", tok)
                                if mp:
                                    ptr = mp.group(1)
                    i += 1
                statics[sname] = {"alloc": aid, "size": size, "bytes": bytes(data[:size]) if not relocs else None,
                                  "raw": bytes(data), "ptr": ptr}
                statics[aid] = statics[sname]
        i += 1
    for nm, (ety, cnt) in static_types.items():
        if nm in statics:
            statics[nm]["elem"] = ety
            statics[nm]["count"] = cnt
    return fns, statics
