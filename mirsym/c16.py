"""C16 — recursion only through nesting, never along the cdr chain: clone and == of a cons cell (E2).
The list-walking functions of the API are loops (cut and checked step by step elsewhere); what could make stack use grow
with the number of elements is a self-recursive call on a cell's cdr. Decided here for Cons::clone and Cons::eq on an
abstract cell with arbitrary car / cdr kinds; the native witnesses run the operations on 300000 elements."""
import re

import z3

from . import common as K
from . import ctx as C
from . import replay as RP
from . import stubs as S
from .claims import Claim
from .serde import sym_value
from .symex import Agg, Blob, BoolV, EnumV, Int, Opaque, Ref, UnitV, Unsupported


def bv(v, w=64):
    return z3.BitVecVal(v, w)


def walk_stubs(cx, engine):
    VAL = cx.enums["Value"]

    def unref(st, v):
        while isinstance(v, Ref):
            v = engine.load(st, v.addr)
        return v

    def fresh_cell(st, label):
        car = sym_value(cx, engine, st, label + "_car", 0)
        cdr = sym_value(cx, engine, st, label + "_cdr", 0)
        # the cdr, if a pair, leads to a further abstract cell (created lazily)
        return Opaque("Cons", label, {"car": car, "cdr": cdr, "role": label})

    def h_carcdr(engine, st, fr, callee, argv, m):
        c = unref(st, argv[0])
        if isinstance(c, Blob):
            return Ref(("V", Blob("built")))
        v = c.attrs[m.group(1)]
        if m.group(1) == "cdr" and isinstance(v, EnumV) and VAL.index("Cons") in v.variants:
            # materialise the next cell behind a Cons cdr
            if not isinstance(v.variants[VAL.index("Cons")][0], Opaque):
                n = st.notes.get("ncells", 0) + 1
                st.notes["ncells"] = n
                v.variants[VAL.index("Cons")] = [fresh_cell(st, "%s_next%d" % (c.label, n))]
        st.notes.setdefault("roles", {})
        return Ref(("V", v))

    def tag(st, v):
        """('car'|'cdr', cell label, value) for an argument that is a field of one of the abstract cells"""
        v = unref(st, v)
        return v

    def h_vclone(engine, st, fr, callee, argv, m):
        v = unref(st, argv[0])
        st.events.append(("value_op", "clone", (v,)))
        return Blob("cloned")

    def h_veq(engine, st, fr, callee, argv, m):
        a, b = unref(st, argv[0]), unref(st, argv[1])
        r = z3.Bool("veq_%d" % next(engine.fresh))
        st.events.append(("value_op", m.group(1), (a, b)))
        return BoolV(r if m.group(1) == "eq" else z3.Not(r))

    def h_box_derived(engine, st, fr, callee, argv, m):
        # derived / std implementations on the boxed pair operate on BOTH fields
        op = m.group(1)
        st.events.append(("boxed_pair_op", op))
        if op == "clone":
            return Blob("cloned pair")
        return BoolV(z3.Bool("boxeq_%d" % next(engine.fresh)))

    def h_blob(engine, st, fr, callee, argv, m):
        return Blob(callee.split("::<")[0])

    def h_as_cons_mut(engine, st, fr, callee, argv, m):
        return S.mk_option(True, Ref(("V", Blob("tailcell"))))
    return [
        (re.compile(r"^Cons::(car|cdr)$"), h_carcdr),
        (re.compile(r"^<Value as Clone>::clone$"), h_vclone),
        (re.compile(r"^<(?:&)?Value as PartialEq>::(eq|ne)$"), h_veq),
        (re.compile(r"^<Box<\(Value, Value\)> as (?:Clone|PartialEq)>::(clone|eq|ne)$"), h_box_derived),
        (re.compile(r"^Value::as_cons_mut$"), h_as_cons_mut),
        (re.compile(r"^(Cons::new::<|Cons::set_cdr::<|Cons::set_car::<|Cons::cdr_mut|<Cons as Into<Value>>|<Value as From<Cons>>|Option::<&mut Cons>::unwrap)"), h_blob),
    ]


def claim_no_cdr_recursion(cx, res, kf):
    VAL = cx.enums["Value"]
    CONS = VAL.index("Cons")
    for op, callee, nargs in (("clone", "<Cons as Clone>::clone", 1), ("eq", "<Cons as PartialEq>::eq", 2)):
        fn = C.resolve_callee(cx, callee)
        if fn is None:
            # derived implementation: look it up by its derive span in cons.rs
            cands = [f for n, f in cx.fns.items() if "lexpr/src/cons.rs" in n and n.endswith("::" + ("clone" if op == "clone" else "eq"))
                     and f.local_ty.get(f.args[0], "").strip() in ("&cons::Cons", "&Cons")]
            fn = cands[0] if cands else None
        if fn is None:
            res.error = "Cons::%s not found in the MIR dump" % op
            return
        eng = C.make_engine(cx, [], loop_mode="cut", timeout_s=120, max_paths=5000)
        eng.stubs = walk_stubs(cx, eng) + S.COMBINATOR_STUBS + S.CORE_STUBS
        info = {}

        def init(e, st, fr):
            cells = []
            for i in range(nargs):
                car = sym_value(cx, e, st, "c%d_car" % i, 0)
                cdr = sym_value(cx, e, st, "c%d_cdr" % i, 0)
                cell = Opaque("Cons", "cell%d" % i, {"car": car, "cdr": cdr})
                cells.append(cell)
                fr.locals[fn.args[i]] = Ref(("V", cell))
            info["cells"] = cells
            st.notes["in"] = ()
            return []

        def havoc(e, st, fr, bb):
            st.notes["in"] = st.notes["in"] + ((bb, {}),)
            return []
        eng.havoc_hook = havoc
        terms = eng.explore(fn.name, init)
        res.absorb(eng)

        def onm(m, op=op):
            for o in ((op, "eq_self") if op == "eq" else (op,)):
                done = RP.stack_op(o, 300000)
                res.replays += 1
                if done is False:
                    return {"replayed": True, "observed": "%s on 300000 elements did not complete" % o, "witness": {"kind": "stack", "op": o, "n": 300000}}
            return {"replayed": False, "observed": "completed"}
        n_ops = 0
        for t in terms:
            pc = list(t.state.pc)
            if t.kind == "PANIC":
                res.must_be_unsat(pc, "Cons::%s: reachable panic" % op, onm)
                continue
            for ev in t.state.events:
                if ev[0] == "boxed_pair_op":
                    res.must_be_unsat(pc, "Cons::%s handles the boxed (car, cdr) pair as a whole: the cdr is processed by a nested call, "
                                      "one stack frame per list element" % op, onm)
                if ev[0] != "value_op":
                    continue
                n_ops += 1
                args = ev[2]
                # an argument that is the cdr of some abstract cell must not be a pair
                cells = all_cells(info["cells"], VAL)
                cdr_args = [a for a in args if isinstance(a, EnumV) and any(a is c.attrs["cdr"] for c in cells)]
                if cdr_args and len(cdr_args) == len(args):
                    # a Value-level operation whose operands are all cdrs: harmless only if they cannot all be pairs
                    # (comparing a pair with a non-pair ends at the discriminants)
                    res.must_be_unsat(pc + [a.discr == CONS for a in cdr_args], "Cons::%s recurses into a cdr that is itself a pair "
                                      "(stack depth grows with the number of list elements)" % op, onm)
        res.vacuity.append(("Cons::%s performs element operations" % op, n_ops >= 2))


def all_cells(cells, VAL):
    out = []
    work = list(cells)
    while work:
        c = work.pop()
        out.append(c)
        nxt = c.attrs["cdr"].variants.get(VAL.index("Cons"), [None])[0] if isinstance(c.attrs["cdr"], EnumV) else None
        if isinstance(nxt, Opaque) and "cdr" in nxt.attrs:
            work.append(nxt)
    return out


def claim_drop_unlinks(cx, res, kf):
    """<Cons as Drop>::drop: the hand-written drop may leave the cdr chain to the compiler's (recursive) drop glue only when
    that chain is at most two cells long; otherwise it takes the cells off one by one in a loop."""
    VAL = cx.enums["Value"]
    CONS = VAL.index("Cons")
    fn = None
    for name, f in cx.fns.items():
        if "lexpr/src/cons.rs" in name and name.endswith("::drop") and "Cons" in f.local_ty.get(f.args[0], ""):
            fn = f
    if fn is None:
        res.error = "<Cons as Drop>::drop not found in the MIR dump"
        return
    eng = C.make_engine(cx, [], loop_mode="cut", timeout_s=120, max_paths=5000)
    info = {}

    def unref(st, v):
        while isinstance(v, Ref):
            v = eng.load(st, v.addr)
        return v

    def h_carcdr(engine, st, fr, callee, argv, m):
        c = unref(st, argv[0])
        if not isinstance(c, Opaque) or "cdr" not in c.attrs:
            return Ref(("V", Blob("field")))
        return Ref(("V", c.attrs[m.group(1)]))

    def h_take(engine, st, fr, callee, argv, m):
        c = unref(st, argv[0])
        st.events.append(("take", c.label if isinstance(c, Opaque) else "later-cell"))
        return Opaque("Cons", "taken", {})

    def h_cdr_mut(engine, st, fr, callee, argv, m):
        return Ref(("V", Blob("cdr of a taken cell")))

    def h_as_cons_mut(engine, st, fr, callee, argv, m):
        some = z3.Bool("more_cells_%d" % next(engine.fresh))
        st.events.append(("more", some))
        return S.mk_option(some, Ref(("V", Opaque("Cons", "later", {}))))
    def h_as_pair(engine, st, fr, callee, argv, m):
        c = unref(st, argv[0])
        if not isinstance(c, Opaque) or "cdr" not in c.attrs:
            return Agg("tuple", None, [Ref(("V", Blob("field"))), Ref(("V", Blob("field")))])
        return Agg("tuple", None, [Ref(("V", c.attrs["car"])), Ref(("V", c.attrs["cdr"]))])
    eng.stubs = [(re.compile(r"^Cons::(car|cdr)$"), h_carcdr), (re.compile(r"^Cons::as_pair$"), h_as_pair), (re.compile(r"^Cons::take$"), h_take), (re.compile(r"^Cons::cdr_mut$"), h_cdr_mut),
                 (re.compile(r"^Value::as_cons_mut$"), h_as_cons_mut),
                 # list-walking predicates (is_list, is_dotted_list, ...): an arbitrary answer
                 (re.compile(r"^Value::is_(?!cons$|null$)\w+$"), lambda e, st, fr, c, a, m: BoolV(z3.Bool("pred_%d" % next(e.fresh)))),
                 (re.compile(r"^(core|std)::ptr::drop_in_place::<"), lambda e, st, fr, c, a, m: UnitV()),
                 (re.compile(r"^(core|std)::mem::drop::<"), lambda e, st, fr, c, a, m: UnitV())] + S.COMBINATOR_STUBS + S.CORE_STUBS

    def init(e, st, fr):
        cdr2 = sym_value(cx, e, st, "cdr2", 0)
        cell2 = Opaque("Cons", "second", {"car": Blob("car2"), "cdr": cdr2})
        cdr1 = sym_value(cx, e, st, "cdr1", 0)
        cdr1.variants[CONS] = [cell2]
        cell1 = Opaque("Cons", "self", {"car": Blob("car1"), "cdr": cdr1})
        st.heap["self"] = cell1
        fr.locals[fn.args[0]] = Ref(("H", "self"))
        info.update(cdr1=cdr1, cdr2=cdr2)
        st.notes["in"] = ()
        return []

    def havoc(e, st, fr, bb):
        st.notes["in"] = st.notes["in"] + ((bb, {"nev": len(st.events)}),)
        return []
    eng.havoc_hook = havoc
    terms = eng.explore(fn.name, init)
    res.absorb(eng)

    def onm(m=None):
        for op in ("drop", "drop_nils", "drop_nested_heads"):
            for dotted in (True, False):
                done = RP.stack_op(op, 60000, dotted=dotted, timeout=400)
                res.replays += 1
                if done is False:
                    return {"replayed": True, "observed": "%s of a 60000-element %s list on a 2 MiB stack did not complete" % (op, "dotted" if dotted else "proper"),
                            "witness": {"kind": "stack", "op": op, "n": 60000, "dotted": dotted}}
        return {"replayed": False}
    seen = {"early": 0, "loop": 0, "step": 0}
    long_chain = z3.And(info["cdr1"].discr == CONS, info["cdr2"].discr == CONS)
    for t in terms:
        st = t.state
        pc = list(st.pc)
        takes = [e for e in st.events if e[0] == "take"]
        if t.kind == "PANIC":
            res.must_be_unsat(pc, "Cons::drop: reachable panic", onm)
        elif t.kind == "LOOP_BACK":
            seen["step"] += 1
            hb, rec = st.notes["in"][-1]
            if not [e for e in st.events[rec["nev"]:] if e[0] == "take"]:
                res.must_be_unsat(pc, "Cons::drop: a pass of the unlinking loop does not take the next cell off the chain", onm)
        elif t.kind == "RETURN":
            if not takes:
                seen["early"] += 1
                res.must_be_unsat(pc + [long_chain], "Cons::drop leaves a cdr chain of more than two cells to the recursive drop glue "
                                  "(one stack frame per element; e.g. for dotted lists)", onm)
            else:
                seen["loop"] += 1
                if takes[0][1] != "self":
                    res.must_be_unsat(pc, "Cons::drop: the cell being dropped is not emptied first", onm)
                mores = [e for e in st.events if e[0] == "more"]
                if not mores:
                    res.must_be_unsat(pc, "Cons::drop returns after emptying the cell without looking for further cells", onm)
                else:
                    # it may stop only when the chain has ended; the cell taken last must itself have been asked
                    res.must_be_unsat(pc + [mores[-1][1]], "Cons::drop stops unlinking while cells remain (the rest goes to the recursive drop glue)", onm)
                    if len(takes) > len(mores):
                        res.must_be_unsat(pc, "Cons::drop: a cell is taken off without checking what follows it", onm)
    for k, n in seen.items():
        res.vacuity.append(("Cons::drop reaches %s" % k, n > 0))


def claim_spaninfo_drop(cx, res, kf):
    """<SpanInfo as Drop>::drop: whenever the node is a Cons node its cdr slot is taken out (replaced by a leaf) before the
    node goes to the recursive drop glue, whatever its span is, and the loop does the same for every further Cons node."""
    SI = cx.enums["SpanInfo"]
    CONS = SI.index("Cons")
    fn = None
    for name, f in cx.fns.items():
        if "lexpr/src/datum.rs" in name and name.endswith("::drop") and "SpanInfo" in f.local_ty.get(f.args[0], ""):
            fn = f
    if fn is None:
        res.error = "<SpanInfo as Drop>::drop not found in the MIR dump"
        return
    eng = C.make_engine(cx, [], loop_mode="cut", timeout_s=120, max_paths=5000)
    info = {}

    def mk_node(label, depth):
        d = z3.BitVec("%s_kind" % label, 64)
        eng.solver.add(z3.ULT(d, bv(len(SI))))
        info.setdefault("cons", []).append(z3.ULT(d, bv(len(SI))))
        if depth > 0:
            arr = Agg("array", "[SpanInfo; 2]", [Blob(label + "_carmeta"), mk_node(label + "_cdr", depth - 1)])
        else:
            arr = Agg("array", "[SpanInfo; 2]", [Blob(label + "_carmeta"), Opaque("SpanInfo", label + "_rest", {})])
        info.setdefault("heap", {})["arr_" + label] = arr
        box = Agg("struct", "Box", [Agg("struct", "Unique", [Ref(("H", "arr_" + label))]), UnitV()])
        span = Agg("struct", "Span", [Blob(label + "_s"), Blob(label + "_e")])
        n = EnumV("SpanInfo", d, {SI.index("Prim"): [span], CONS: [span, box], SI.index("Vec"): [span, Blob(label + "_elems")]})
        info.setdefault("nodes", {})[label] = (n, arr)
        return n

    def h_replace(engine, st, fr, callee, argv, m):
        dest = argv[0]
        cur = engine.load(st, dest.addr)
        # which array does the slot belong to?
        owner = None
        if len(dest.addr) >= 2 and dest.addr[0] == "H" and str(dest.addr[1]).startswith("arr_"):
            owner = dest.addr[1][4:]
        st.events.append(("replace", owner, dest.addr[2:] if len(dest.addr) > 2 else ()))
        engine.store(st, dest.addr, argv[1])
        return cur

    def h_blobfn(engine, st, fr, callee, argv, m):
        return Blob("span")
    eng.stubs = [(re.compile(r"^std::mem::replace::<SpanInfo>$"), h_replace), (re.compile(r"^(?:datum::)?Span::empty$"), h_blobfn)] + S.COMBINATOR_STUBS + S.CORE_STUBS
    next_l = fn.local_by_debug("next")

    def init(e, st, fr):
        node = mk_node("self", 1)
        st.heap.update(info["heap"])
        st.heap["self"] = node
        fr.locals[fn.args[0]] = Ref(("H", "self"))
        st.notes["in"] = ()
        return list(info.get("cons", []))

    def havoc(e, st, fr, bb):
        arrive = fr.locals.get(next_l)
        nxt = mk_node("next%d" % len(st.notes["in"]), 0)
        st.heap.update(info["heap"])
        fr.locals[next_l] = nxt
        st.notes["in"] = st.notes["in"] + ((bb, {"next": nxt, "label": "next%d" % len(st.notes["in"]), "nev": len(st.events), "arrive": arrive}),)
        return []
    eng.havoc_hook = havoc
    terms = eng.explore(fn.name, init)
    res.absorb(eng)

    def onm(m=None):
        for op in ("datum_parse_err", "datum_drop"):
            done = RP.stack_op(op, 300000)
            res.replays += 1
            if done is False:
                return {"replayed": True, "observed": "%s on a 300000-element list did not complete on a 2 MiB stack" % op,
                        "witness": {"kind": "stack", "op": op, "n": 300000}}
        return {"replayed": False}
    selfn = info["nodes"]["self"][0]
    seen = {"leaf": 0, "first": 0, "step": 0, "end": 0}
    for t in terms:
        st = t.state
        pc = list(st.pc)
        if t.kind == "PANIC":
            res.must_be_unsat(pc, "SpanInfo::drop: reachable panic", onm)
            continue
        reps = [e for e in st.events if e[0] == "replace"]
        if not st.notes["in"]:
            if t.kind == "RETURN":
                seen["leaf"] += 1
                res.must_be_unsat(pc + [selfn.discr == CONS], "SpanInfo::drop leaves the cdr chain of a list node to the recursive drop glue "
                                  "(one stack frame per element, e.g. for the span information a failed parse throws away)", onm)
            continue
        first = [e for e in st.events[:st.notes["in"][0][1]["nev"]] if e[0] == "replace"]
        def cdr_slot(ev):
            return bool(ev[2]) and ev[2][-1] in (("f", 1), ("c", 1))
        if not (len(first) == 1 and first[0][1] == "self" and cdr_slot(first[0])):
            res.must_be_unsat(pc, "SpanInfo::drop enters its loop without taking the node's own cdr slot (slot 1 of the pair)", onm)
            continue
        seen["first"] += 1
        hb, rec = st.notes["in"][-1]
        nxt = rec["next"]
        body = [e for e in st.events[rec["nev"]:] if e[0] == "replace"]
        if t.kind == "LOOP_BACK":
            seen["step"] += 1
            ok = len(body) == 1 and body[0][1] == rec["label"] and cdr_slot(body[0])
            res.must_be_unsat(pc + [nxt.discr != CONS], "SpanInfo::drop: loop continues on a node that is not a list node", onm)
            if not ok:
                res.must_be_unsat(pc, "SpanInfo::drop: a pass of the loop does not take the next node's cdr slot", onm)
        elif t.kind == "RETURN":
            seen["end"] += 1
            res.must_be_unsat(pc + [nxt.discr == CONS], "SpanInfo::drop stops at a list node whose cdr chain is still attached", onm)
    for k, n in seen.items():
        res.vacuity.append(("SpanInfo::drop reaches %s" % k, n > 0))


def claim_lookup_no_recursion(cx, res, kf):
    """C16: association-list lookup (by value, by name) and positional indexing walk the list in a loop: none of the `index_into`
    implementations calls an `index_into` again on the rest of the list (one stack frame per entry)."""
    from . import c15 as C15
    from .serde import sym_value
    VAL = cx.enums["Value"]
    n_paths = 0
    for which, callee in (("value", "<Value as Index>::index_into"), ("name", "<str as Index>::index_into"), ("position", "<usize as Index>::index_into")):
        fn = C.resolve_callee(cx, callee)
        if fn is None:
            res.error = "%s not found" % callee
            return
        eng = C.make_engine(cx, [], loop_mode="cut", timeout_s=120, max_paths=3000)

        def h_again(engine, st, fr, callee_, argv, m):
            st.events.append(("lookup_again", callee_))
            return S.mk_option(z3.Bool("again_%d" % next(engine.fresh)), Ref(("V", Blob("found later"))))
        def h_slice_get(engine, st, fr, callee_, argv, m):
            return S.mk_option(z3.Bool("inrange_%d" % next(engine.fresh)), Ref(("V", Blob("element"))))
        eng.stubs = [(re.compile(r"^<.* as (?:value::)?(?:index::)?Index>::index_into$"), h_again),
                     (re.compile(r"^core::slice::<impl \[Value\]>::get::<usize>$"), h_slice_get)] + C15.cell_stubs(cx, eng) + S.COMBINATOR_STUBS + S.CORE_STUBS

        def init(e, st, fr, which=which, fn=fn):
            target = sym_value(cx, e, st, "target", 0)
            entry = sym_value(cx, e, st, "entry", 1)
            cell = Opaque("Cons", "somecell", {"car": entry, "cdr": sym_value(cx, e, st, "rest", 0)})
            st.notes["some_cell"] = cell
            # the target, when it is a list, starts with that cell
            CONS = VAL.index("Cons")
            if isinstance(target, EnumV):
                target.variants[CONS] = [cell]
            st.heap["target"] = target
            if which == "value":
                st.heap["key"] = sym_value(cx, e, st, "key", 0)
                fr.locals[fn.args[0]] = Ref(("H", "key"))
            elif which == "name":
                fr.locals[fn.args[0]] = Ref(("V", Opaque("str", "wanted-name", {})))
            else:
                fr.locals[fn.args[0]] = Ref(("V", e.sym_int("usize", "position")))
            fr.locals[fn.args[1]] = Ref(("H", "target"))
            return []

        def onm(m, which=which):
            op = {"value": "alist_get_value", "name": "alist_get_name", "position": "get"}[which]
            done = RP.stack_op(op, 300000)
            res.replays += 1
            if done is False:
                return {"replayed": True, "observed": "%s on 300000 entries did not complete on a 2 MiB stack" % op, "witness": {"kind": "stack", "op": op, "n": 300000}}
            return {"replayed": False, "observed": "completed"}
        try:
            terms = eng.explore(fn.name, init)
        except Unsupported as e:
            res.error = "unsupported: index_into (%s): %s" % (which, e)
            return
        res.absorb(eng)
        for t in terms:
            n_paths += 1
            again = [e for e in t.state.events if e[0] == "lookup_again"]
            if again:
                res.must_be_unsat(list(t.state.pc), "lookup by %s calls %s again for the rest of the list: one stack frame per entry" % (which, again[0][1]), onm)
    res.vacuity.append(("lookup functions explored", n_paths >= 6))


def claim_predicates_no_recursion(cx, res, kf):
    """C16: the list predicates walk the list with an iterator: `is_list` / `is_dotted_list` never call a list predicate again on
    the rest of the list (one stack frame per element)."""
    from .serde import sym_value
    VAL = cx.enums["Value"]
    n_paths = 0
    for name in ("is_list", "is_dotted_list"):
        fn = C.resolve_callee(cx, "Value::" + name)
        if fn is None:
            res.error = "Value::%s not found" % name
            return
        eng = C.make_engine(cx, [], loop_mode="cut", timeout_s=60, max_paths=2000)

        def h_again(engine, st, fr, callee_, argv, m):
            st.events.append(("predicate_again", callee_))
            return engine.sym_bool("again")

        def h_cdr(engine, st, fr, callee_, argv, m):
            return Ref(("V", sym_value(cx, engine, st, "cdr%d" % next(engine.fresh), 0)))

        def h_iter(engine, st, fr, callee_, argv, m):
            return Opaque("Iter", "cells")

        def h_all(engine, st, fr, callee_, argv, m):
            # the closure applied to ONE arbitrary cell of the list, or no cell at all
            cl = argv[1]
            f = S.closure_fn(engine, cl)
            cell = Ref(("V", Opaque("Cons", "some cell")))
            st.events.append(("all",))
            return ("fork", [(z3.BoolVal(True), ("frame", f, S.fargs(f, cl, [cell]), None), None)])
        eng.stubs = [(re.compile(r"^Value::(is_list|is_dotted_list)$"), h_again), (re.compile(r"^Cons::(cdr|car)$"), h_cdr),
                     (re.compile(r"^Cons::iter$"), h_iter), (re.compile(r"^<cons::Iter<'_> as Iterator>::(all|any)::<"), h_all)] + S.COMBINATOR_STUBS + S.CORE_STUBS

        def init(e, st, fr, fn=fn):
            v = sym_value(cx, e, st, "v", 0)
            v.variants[VAL.index("Cons")] = [Opaque("Cons", "the cell", {})]
            st.heap["v"] = v
            fr.locals[fn.args[0]] = Ref(("H", "v"))
            return []

        def onm(m):
            done = RP.stack_op("is_list", 300000)
            res.replays += 1
            if done is False:
                return {"replayed": True, "observed": "is_list / is_dotted_list on 300000 elements did not complete on a 2 MiB stack", "witness": {"kind": "stack", "op": "is_list", "n": 300000}}
            return {"replayed": False, "observed": "completed"}
        try:
            terms = eng.explore(fn.name, init)
        except Unsupported as e:
            res.error = "unsupported: Value::%s: %s" % (name, e)
            return
        res.absorb(eng)
        for t in terms:
            n_paths += 1
            again = [e for e in t.state.events if e[0] == "predicate_again"]
            if again:
                res.must_be_unsat(list(t.state.pc), "Value::%s calls %s for the rest of the list: one stack frame per element" % (name, again[0][1]), onm)
    res.vacuity.append(("list predicates explored", n_paths >= 6))


def claim_ignored_any(cx0, res, kf):
    """Skipping an unknown field (serde's IgnoredAny) must not walk the skipped value: deserialize_ignored_any only tells
    the visitor `unit`; forwarding to deserialize_any would present a list as nested (car, cdr) pairs, one stack frame per
    element."""
    from .serde import merged_ctx, find_method, serde_stubs
    cx = merged_ctx()
    fn = find_method(cx, "serde-lexpr/src/value/de.rs", "deserialize_ignored_any", "Deserializer")
    if fn is None:
        res.error = "deserialize_ignored_any not found"
        return
    eng = C.make_engine(cx, [], loop_mode="cut", timeout_s=120, max_paths=5000)
    calls = []

    def h_other(engine, st, fr, callee, argv, m):
        st.events.append(("forward", m.group(1)))
        return S.mk_result(engine, z3.Bool("fw_err_%d" % next(engine.fresh)), Blob("forwarded"), Opaque("Error", "fw", {}))
    eng.stubs = [(re.compile(r"::(deserialize_\w+)(?:::<.*>)?$"), h_other)] + serde_stubs(cx, eng) + S.COMBINATOR_STUBS + S.CORE_STUBS

    def init(e, st, fr):
        v = sym_value(cx, e, st, "in", 1)
        st.heap["de"] = Agg("struct", "Deserializer", [Ref(("V", v))])
        fr.locals[fn.args[0]] = Ref(("H", "de"))
        fr.locals[fn.args[1]] = Opaque("V", "visitor", {})
        return []
    terms = eng.explore(fn.name, init)
    res.absorb(eng)

    def onm(m=None):
        done = RP.stack_op("from_value_ignored", 300000)
        res.replays += 1
        return {"replayed": done is False, "observed": "from_value of a struct with an unknown field holding 300000 elements completed=%r" % done,
                "witness": {"kind": "stack", "op": "from_value_ignored", "n": 300000}}
    n = 0
    for t in terms:
        pc = list(t.state.pc)
        if t.kind == "PANIC":
            res.must_be_unsat(pc, "deserialize_ignored_any: reachable panic", onm)
            continue
        n += 1
        visits = [e for e in t.state.events if e[0] == "visit"]
        fw = [e for e in t.state.events if e[0] == "forward"]
        bad = fw or [e for e in visits if e[1] not in ("visit_unit", "visit_none")]
        if bad:
            res.must_be_unsat(pc, "deserialize_ignored_any walks the value it is asked to skip (%s): a skipped list costs stack per element"
                              % ", ".join(sorted(set(e[1] for e in bad))), onm)
    res.vacuity.append(("deserialize_ignored_any paths", n > 0))


def claim_error_paths_shallow(cx0, res, kf):
    """Building a deserialization error must not format (Debug / Display) the offending list: `{:?}` of a cons chain costs
    one stack frame per element (open finding debug-recursive), which would turn every type mismatch on a long list into a
    stack overflow inside from_value."""
    from .serde import merged_ctx, serde_stubs
    cx = merged_ctx()
    fn = None
    for n, f in cx.fns.items():
        if "serde-lexpr/src/value/de.rs" in n and (n.endswith("::invalid_value") or n == "value::de::invalid_value" or n.split("::")[-1] == "invalid_value") and "{closure" not in n:
            fn = f
    if fn is None:
        fn = cx.fns.get("invalid_value") or cx.fns.get("value::de::invalid_value")
    if fn is None:
        res.error = "invalid_value not found"
        return
    eng = C.make_engine(cx, [], loop_mode="cut", timeout_s=60, max_paths=2000)

    def h_fmt_arg(engine, st, fr, callee, argv, m):
        st.events.append(("fmt_arg", m.group(1), m.group(2)))
        return Blob("fmt argument")

    def h_blob(engine, st, fr, callee, argv, m):
        return Blob(callee.split("::<")[0])
    eng.stubs = [
        (re.compile(r"^core::fmt::rt::Argument::<'_>::new_(\w+)::<(.*)>$"), h_fmt_arg),
        (re.compile(r"^(?:core::fmt::)?Arguments::<'_>::(new|from_str)"), h_blob),
        (re.compile(r"^(?:(?:alloc|std)::fmt::)?format$|^(alloc|std)::fmt::format"), h_blob), (re.compile(r"^<(?:std::string::)?String as Deref>::deref$"), h_blob), (re.compile(r"^(core|std)::(ptr::drop_in_place|mem::drop)::<"), lambda e, st, fr, c, a, m: UnitV()),
        (re.compile(r"^(?:core::hint::)?must_use::<"), lambda e, st, fr, c, a, m: a[0]),
    ] + serde_stubs(cx, eng) + S.COMBINATOR_STUBS + S.CORE_STUBS

    def init(e, st, fr):
        v = sym_value(cx, e, st, "in", 0)
        fr.locals[fn.args[0]] = Ref(("V", v))
        fr.locals[fn.args[1]] = Opaque("&str", "expected", {})
        return []
    terms = eng.explore(fn.name, init)
    res.absorb(eng)

    def onm(m=None):
        done = RP.stack_op("from_value_mismatch", 300000)
        res.replays += 1
        return {"replayed": done is False, "observed": "from_value::<String> of a 300000-element list completed=%r" % done,
                "witness": {"kind": "stack", "op": "from_value_mismatch", "n": 300000}}
    n = 0
    for t in terms:
        pc = list(t.state.pc)
        if t.kind == "PANIC":
            continue      # C18's claims
        n += 1
        walked = [e for e in t.state.events if e[0] == "fmt_arg" and re.search(r"Cons|Value|Vec<|\[Value\]|Box<", e[2])]
        if walked:
            res.must_be_unsat(pc, "the deserialization error for a wrong kind formats the offending value (%s of %s): a mismatch on a long list "
                              "recurses once per element" % (walked[0][1], walked[0][2]), onm)
    res.vacuity.append(("invalid_value paths", n >= 5))


CLAIMS = [
    Claim("c16_no_cdr_recursion", "C16", "quick", claim_no_cdr_recursion,
          "Cons::clone and Cons::eq never make a nested Value-level call on a cdr that is itself a pair: they advance along "
          "the cdr chain in a loop and recurse only into elements (nesting), so their stack depth does not grow with the "
          "number of elements",
          "one arbitrary loop step on abstract cells with arbitrary car / cdr kinds", configs=("fast",)),
    Claim("c16_drop_unlinks", "C16", "quick", claim_drop_unlinks,
          "the hand-written Drop of a cons cell returns early (leaving the rest to the recursive drop glue) only when at most two "
          "further cells follow, whatever ends the chain (proper or dotted); otherwise it empties the cell and every pass of its "
          "loop takes the next cell off the chain",
          "arbitrary kinds of the first two cdrs; any chain length (loop cut)", configs=("fast",)),
    Claim("c16_spaninfo_drop", "C16", "quick", claim_spaninfo_drop,
          "the hand-written Drop of span information takes the cdr slot out of every list node (the dropped node itself, whatever "
          "its span, and each further one in its loop) before the node reaches the recursive drop glue, and stops only at a "
          "non-list node",
          "arbitrary node kinds; any chain length (loop cut)", configs=("fast",), also=("C03",)),
    Claim("c16_lookup_no_recursion", "C16", "quick", claim_lookup_no_recursion,
          "Value::get / indexing by value, by name and by position: no `index_into` implementation calls an `index_into` again for "
          "the rest of the list on any path (the walk is a loop, not one stack frame per entry)",
          "arbitrary target, entry and key kinds; all paths of the three implementations", configs=("fast",), also=("C15",)),
    Claim("c16_predicates_no_recursion", "C16", "quick", claim_predicates_no_recursion,
          "Value::is_list / is_dotted_list never call a list predicate again for the rest of the list on any path (the walk is the cell "
          "iterator's loop, not one stack frame per element)",
          "arbitrary value kinds, abstract cells", configs=("fast",), also=("C15",)),
    Claim("c16_error_paths_shallow", "C16", "quick", claim_error_paths_shallow,
          "the error built for a value of the wrong kind never formats that value (no Debug / Display of a list from inside from_value)",
          "every value kind", configs=("fast",), crate="serde-lexpr"),
    Claim("c16_ignored_any_shallow", "C16", "quick", claim_ignored_any,
          "deserialize_ignored_any (unknown struct fields) answers with visit_unit and never forwards to a walking method",
          "arbitrary value", configs=("fast",), crate="serde-lexpr"),
]
