"""C16 — recursion only through nesting, never along the cdr chain: clone and == of a cons cell (E2).
The list-walking functions of the API are loops (cut and checked step by step elsewhere); what could make stack use grow
with the number of elements is a self-recursive call on a cell's cdr. Decided here for Cons::clone and Cons::eq on an
abstract cell with arbitrary car / cdr kinds; the native witnesses run the operations on 300000 elements."""
import re

import z3

from . import common as K
from . import ctx as C
from . import replay as RP
from . import stubs as S
from .claims import Claim
from .serde import sym_value
from .symex import Agg, Blob, BoolV, EnumV, Int, Opaque, Ref, UnitV, Unsupported


def bv(v, w=64):
    return z3.BitVecVal(v, w)


def walk_stubs(cx, engine):
    VAL = cx.enums["Value"]

    def unref(st, v):
        while isinstance(v, Ref):
            v = engine.load(st, v.addr)
        return v

    def fresh_cell(st, label):
        car = sym_value(cx, engine, st, label + "_car", 0)
        cdr = sym_value(cx, engine, st, label + "_cdr", 0)
        # the cdr, if a pair, leads to a further abstract cell (created lazily)
        return Opaque("Cons", label, {"car": car, "cdr": cdr, "role": label})

    def h_carcdr(engine, st, fr, callee, argv, m):
        c = unref(st, argv[0])
        if isinstance(c, Blob):
            return Ref(("V", Blob("built")))
        v = c.attrs[m.group(1)]
        if m.group(1) == "cdr" and isinstance(v, EnumV) and VAL.index("Cons") in v.variants:
            # materialise the next cell behind a Cons cdr
            if not isinstance(v.variants[VAL.index("Cons")][0], Opaque):
                n = st.notes.get("ncells", 0) + 1
                st.notes["ncells"] = n
                v.variants[VAL.index("Cons")] = [fresh_cell(st, "%s_next%d" % (c.label, n))]
        st.notes.setdefault("roles", {})
        return Ref(("V", v))

    def tag(st, v):
        """('car'|'cdr', cell label, value) for an argument that is a field of one of the abstract cells"""
        v = unref(st, v)
        return v

    def h_vclone(engine, st, fr, callee, argv, m):
        v = unref(st, argv[0])
        st.events.append(("value_op", "clone", (v,)))
        return Blob("cloned")

    def h_veq(engine, st, fr, callee, argv, m):
        a, b = unref(st, argv[0]), unref(st, argv[1])
        r = z3.Bool("veq_%d" % next(engine.fresh))
        st.events.append(("value_op", m.group(1), (a, b)))
        return BoolV(r if m.group(1) == "eq" else z3.Not(r))

    def h_box_derived(engine, st, fr, callee, argv, m):
        # derived / std implementations on the boxed pair operate on BOTH fields
        op = m.group(1)
        st.events.append(("boxed_pair_op", op))
        if op == "clone":
            return Blob("cloned pair")
        return BoolV(z3.Bool("boxeq_%d" % next(engine.fresh)))

    def h_blob(engine, st, fr, callee, argv, m):
        return Blob(callee.split("::<")[0])

    def h_as_cons_mut(engine, st, fr, callee, argv, m):
        return S.mk_option(True, Ref(("V", Blob("tailcell"))))
    return [
        (re.compile(r"^Cons::(car|cdr)$"), h_carcdr),
        (re.compile(r"^<Value as Clone>::clone$"), h_vclone),
        (re.compile(r"^<(?:&)?Value as PartialEq>::(eq|ne)$"), h_veq),
        (re.compile(r"^<Box<\(Value, Value\)> as (?:Clone|PartialEq)>::(clone|eq|ne)$"), h_box_derived),
        (re.compile(r"^Value::as_cons_mut$"), h_as_cons_mut),
        (re.compile(r"^(Cons::new::<|Cons::set_cdr::<|Cons::set_car::<|Cons::cdr_mut|<Cons as Into<Value>>|<Value as From<Cons>>|Option::<&mut Cons>::unwrap)"), h_blob),
    ]


def claim_no_cdr_recursion(cx, res, kf):
    VAL = cx.enums["Value"]
    CONS = VAL.index("Cons")
    for op, callee, nargs in (("clone", "<Cons as Clone>::clone", 1), ("eq", "<Cons as PartialEq>::eq", 2)):
        fn = C.resolve_callee(cx, callee)
        if fn is None:
            # derived implementation: look it up by its derive span in cons.rs
            cands = [f for n, f in cx.fns.items() if "lexpr/src/cons.rs" in n and n.endswith("::" + ("clone" if op == "clone" else "eq"))
                     and f.local_ty.get(f.args[0], "").strip() in ("&cons::Cons", "&Cons")]
            fn = cands[0] if cands else None
        if fn is None:
            res.error = "Cons::%s not found in the MIR dump" % op
            return
        eng = C.make_engine(cx, [], loop_mode="cut", timeout_s=120, max_paths=5000)
        eng.stubs = walk_stubs(cx, eng) + S.COMBINATOR_STUBS + S.CORE_STUBS
        info = {}

        def init(e, st, fr):
            cells = []
            for i in range(nargs):
                car = sym_value(cx, e, st, "c%d_car" % i, 0)
                cdr = sym_value(cx, e, st, "c%d_cdr" % i, 0)
                cell = Opaque("Cons", "cell%d" % i, {"car": car, "cdr": cdr})
                cells.append(cell)
                fr.locals[fn.args[i]] = Ref(("V", cell))
            info["cells"] = cells
            st.notes["in"] = ()
            return []

        def havoc(e, st, fr, bb):
            st.notes["in"] = st.notes["in"] + ((bb, {}),)
            return []
        eng.havoc_hook = havoc
        terms = eng.explore(fn.name, init)
        res.absorb(eng)

        def onm(m, op=op):
            done = RP.stack_op(op, 300000)
            res.replays += 1
            return {"replayed": done is False, "observed": "completed=%r" % done, "witness": {"kind": "stack", "op": op, "n": 300000}}
        n_ops = 0
        for t in terms:
            pc = list(t.state.pc)
            if t.kind == "PANIC":
                res.must_be_unsat(pc, "Cons::%s: reachable panic" % op, onm)
                continue
            for ev in t.state.events:
                if ev[0] == "boxed_pair_op":
                    res.must_be_unsat(pc, "Cons::%s handles the boxed (car, cdr) pair as a whole: the cdr is processed by a nested call, "
                                      "one stack frame per list element" % op, onm)
                if ev[0] != "value_op":
                    continue
                n_ops += 1
                args = ev[2]
                # an argument that is the cdr of some abstract cell must not be a pair
                cells = all_cells(info["cells"], VAL)
                cdr_args = [a for a in args if isinstance(a, EnumV) and any(a is c.attrs["cdr"] for c in cells)]
                if cdr_args and len(cdr_args) == len(args):
                    # a Value-level operation whose operands are all cdrs: harmless only if they cannot all be pairs
                    # (comparing a pair with a non-pair ends at the discriminants)
                    res.must_be_unsat(pc + [a.discr == CONS for a in cdr_args], "Cons::%s recurses into a cdr that is itself a pair "
                                      "(stack depth grows with the number of list elements)" % op, onm)
        res.vacuity.append(("Cons::%s performs element operations" % op, n_ops >= 2))


def all_cells(cells, VAL):
    out = []
    work = list(cells)
    while work:
        c = work.pop()
        out.append(c)
        nxt = c.attrs["cdr"].variants.get(VAL.index("Cons"), [None])[0] if isinstance(c.attrs["cdr"], EnumV) else None
        if isinstance(nxt, Opaque) and "cdr" in nxt.attrs:
            work.append(nxt)
    return out


CLAIMS = [
    Claim("c16_no_cdr_recursion", "C16", "quick", claim_no_cdr_recursion,
          "Cons::clone and Cons::eq never make a nested Value-level call on a cdr that is itself a pair: they advance along "
          "the cdr chain in a loop and recurse only into elements (nesting), so their stack depth does not grow with the "
          "number of elements",
          "one arbitrary loop step on abstract cells with arbitrary car / cdr kinds", configs=("fast",)),
]
