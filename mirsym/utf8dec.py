"""E2: decode_utf8_sequence (C17, C03): a non-ASCII character is accepted only through the standard library's UTF-8
validation of exactly the bytes read for it.

All paths (the continuation loop is unrolled: at most 3 bytes): the number of continuation bytes read is the documented
function of the lead byte (1 for C0..DF, 2 for E0..EF, 3 for F0..F7, anything else is rejected before reading), every byte
read is appended to the buffer in order after the lead byte, and `Ok(c)` is returned only when `str::from_utf8` accepted
exactly that buffer, c being the character the validated text starts with.  No hand-made decoding can therefore let an
overlong form, a surrogate or a value above U+10FFFF through."""
import z3

from . import common as K
from . import kernels as KN
from .claims import Claim
from .symex import Int


def bv(v, w=8):
    return z3.BitVecVal(v, w)


def claim_utf8_decode(cx, res, kf):
    pre = {}

    def extra(e):
        v = e.sym_int("u8", "initial")
        pre["a"] = v
        return [v]
    eng, rd, fn, info, terms = KN.run_kernel(cx, res, "decode_utf8_sequence", extra_args=extra, loop_mode="unroll", unroll=6)
    ini = pre["a"].e
    i0 = info["idx0"]
    want_k = z3.If(z3.And(z3.UGE(ini, bv(0xC0)), z3.ULE(ini, bv(0xDF))), bv(1),
                   z3.If(z3.And(z3.UGE(ini, bv(0xE0)), z3.ULE(ini, bv(0xEF))), bv(2),
                         z3.If(z3.And(z3.UGE(ini, bv(0xF0)), z3.ULE(ini, bv(0xF7))), bv(3), bv(0))))
    n_ok = n_rej = 0
    for t in terms:
        pc = list(t.state.pc)
        if t.kind == "PANIC":
            res.must_be_unsat(pc + [z3.UGE(ini, bv(0x80))], "decode_utf8_sequence: reachable panic `%s`" % t.info.get("msg"))
            continue
        if t.kind != "RETURN":
            res.error = "decode_utf8_sequence: exploration ended in %s" % t.kind
            return
        st = t.state
        kind, payload = K.classify_return(eng, t)
        evs = st.events
        nexts = [e for e in evs if e[0] == "next"]
        fu = [e for e in evs if e[0] == "from_utf8"]
        items = list(st.notes.get("scratch", ()))
        if kind != "ok":
            n_rej += 1
            continue
        n_ok += 1
        why = None
        k = len(nexts)
        if len(fu) != 1:
            why = "a character is returned on a path with %d calls of str::from_utf8 (hand-made decoding accepts what the standard " \
                  "validation would reject: overlong forms, surrogates, values above U+10FFFF)" % len(fu)
        elif not (isinstance(payload, Int) and z3.is_const(payload.e) and payload.e.decl().name().startswith("decoded")):
            why = "the character returned (%r) is not the first character of the validated text" % (payload,)
        elif len(items) != k + 1 or any(it[0] != "byte" for it in items):
            why = "the buffer handed to the validation holds %d items for %d bytes read" % (len(items), k)
        if why:
            res.must_be_unsat(pc, "decode_utf8_sequence: " + why)
            continue
        res.must_be_unsat(pc + [z3.Not(fu[0][2])], "decode_utf8_sequence: Ok although str::from_utf8 rejected the bytes")
        res.must_be_unsat(pc + [want_k != bv(k)], "decode_utf8_sequence: %d continuation bytes read for this lead byte" % k)
        same = [items[0][1].e == ini]
        for j in range(k):
            same.append(items[j + 1][1].e == rd.at(i0 + j))
            same.append(nexts[j][1] == i0 + j)
        res.must_be_unsat(pc + [z3.Not(z3.And(*same))], "decode_utf8_sequence: the validated buffer is not the lead byte followed by exactly the bytes read, in order")
        res.must_be_unsat(pc + [st.notes["idx"] != i0 + k], "decode_utf8_sequence: consumes another number of bytes than it validates")
    res.vacuity.append(("decode_utf8_sequence accepting paths", n_ok >= 3))
    res.vacuity.append(("decode_utf8_sequence rejecting paths", n_rej >= 3))


CLAIMS = [
    Claim("c17_utf8_decode", "C17", "quick", claim_utf8_decode,
          "decode_utf8_sequence, all paths: the number of continuation bytes is the documented function of the lead byte (1 / 2 / 3, "
          "anything else rejected before reading), every byte read is appended in order after the lead byte and consumed exactly once, "
          "and Ok(c) is returned only when str::from_utf8 accepted exactly that buffer, c being the character the validated text starts "
          "with (no hand-made decoding path that could accept overlong forms, surrogates or values above U+10FFFF); no panic",
          "every lead byte, every input, I/O error at an arbitrary position; loop unrolled (at most 3 continuation bytes)",
          configs=("fast",), also=("C03", "C06"), confirm=("chars", "strings", "tokens")),
]
