"""E2: how errors get their location (C19) and how the serde error type is built (C18).

c19_error_constructors: the three places that attach a location to a syntax / EOF error (`Parser::error`,
`Parser::peek_error`, the free function `read::error`) hand `Error::syntax` the given error code and the line AND the column of
ONE position query on the input source (`position()` for errors about a consumed byte, `peek_position()` for errors about the
peeked byte) and consult nothing else; `Error::syntax` stores exactly these three.  With the position layer (C11 E1: both
queries are in bounds for all buffers) this gives the in-bounds clause for every error that goes through them.

c18_error_impls: every constructor serde can call on `serde_lexpr::Error` (all methods of `impl de::Error` and
`impl ser::Error`, including provided methods that are overridden) builds a message error, which `classify` maps to
`Category::Data` (c18_error_category)."""
import os
import re

import z3

from . import common as K
from . import ctx as C
from . import stubs as S
from .claims import Claim
from .symex import Agg, Blob, BoolV, EnumV, Int, Opaque, Ref, UnitV, Unsupported


def claim_error_constructors(cx, res, kf):
    onm = None
    targets = []
    for nm, want in (("Parser::<R>::error", "position"), ("Parser::<R>::peek_error", "peek_position")):
        f = C.resolve_callee(cx, nm)
        if f is None:
            res.error = "%s not found" % nm
            return
        targets.append((nm, f, want, "parser"))
    cands = [f for n, f in cx.fns.items() if re.search(r"(^|::read::)error$", n) and len(f.args) == 2
             and f.local_ty.get(f.args[1], "").strip().endswith("ErrorCode")]
    if not cands:
        res.error = "read::error not found"
        return
    targets.append(("read::error", cands[0], "position", "read"))
    syntax = [f for n, f in cx.fns.items() if "lexpr/src/parse/error.rs" in n and n.endswith("::syntax") and len(f.args) == 3]
    if not syntax:
        res.error = "Error::syntax not found"
        return
    n_ok = 0
    for nm, fn, want, kind in targets:
        eng = C.make_engine(cx, [], loop_mode="unroll", unroll=1, timeout_s=60, max_paths=200)
        info = {}

        def h_query(e, st, fr, callee, argv, m):
            q = m.group(1)
            n = sum(1 for ev in st.events if ev[0] == "query") + 1
            if q == "byte_offset":
                v = e.sym_int("usize", "byte_offset%d" % n)
                st.events.append(("query", q, v))
                return v
            line, col = e.sym_int("usize", "%s%d_line" % (q, n)), e.sym_int("usize", "%s%d_col" % (q, n))
            st.events.append(("query", q, line, col))
            return Agg("struct", "Position", [line, col])

        def h_syntax(e, st, fr, callee, argv, m):
            st.events.append(("syntax", argv[0], argv[1], argv[2]))
            return Opaque("Error", "syntax#%d" % sum(1 for ev in st.events if ev[0] == "syntax"))
        eng.stubs = [(re.compile(r"^<R as (?:parse::)?(?:read::)?Read<'_>>::(position|peek_position|byte_offset)$"), h_query),
                     (re.compile(r"^(?:parse::)?(?:error::)?Error::syntax$"), h_syntax)] + S.COMBINATOR_STUBS + S.CORE_STUBS

        def init(e, st, fr, fn=fn, kind=kind):
            cons = []
            if kind == "parser":
                ref, cons, ov = K.parser_state(cx, e, st)
                fr.locals[fn.args[0]] = ref
            else:
                fr.locals[fn.args[0]] = Ref(("V", Opaque("R", "read")))
            ev, c = K.sym_enum(e, "ErrorCode", "code") if hasattr(K, "sym_enum") else (None, None)
            if ev is None:
                raise Unsupported("no symbolic ErrorCode")
            fr.locals[fn.args[1]] = ev
            info["code"] = ev
            return cons + [c]
        terms = eng.explore(fn.name, init)
        res.absorb(eng)
        for t in terms:
            pc = list(t.state.pc)
            if t.kind != "RETURN":
                res.must_be_unsat(pc, "%s: ends in %s" % (nm, t.kind), onm)
                continue
            qs = [e_ for e_ in t.state.events if e_[0] == "query"]
            sy = [e_ for e_ in t.state.events if e_[0] == "syntax"]
            rv = t.value
            if isinstance(rv, EnumV) and rv.name == "Result":
                rv = rv.variants.get(1, [None])[0] if K.concrete(rv.discr) == 1 else None
            why = None
            if len(sy) != 1 or not (isinstance(rv, Opaque) and rv.label == "syntax#1"):
                why = "does not return the one error built by Error::syntax (returns %r)" % (t.value,)
            elif len(qs) != 1 or qs[0][1] != want:
                why = "asks the input source %r, expected exactly one %s()" % ([q[1] for q in qs], want)
            if why:
                res.must_be_unsat(pc, "%s: %s" % (nm, why), onm)
                continue
            n_ok += 1
            _, code, line, col = sy[0]
            res.must_be_unsat(pc + [code.discr != info["code"].discr], "%s: the error carries another code than the one given" % nm, onm)
            if not (isinstance(line, Int) and isinstance(col, Int)):
                res.must_be_unsat(pc, "%s: line / column are not integers (%r, %r)" % (nm, line, col), onm)
                continue
            res.must_be_unsat(pc + [z3.Or(line.e != qs[0][2].e, col.e != qs[0][3].e)],
                              "%s: the error's line / column are not the line and the column of the %s() result" % (nm, want), onm)
    res.vacuity.append(("error constructors return located errors", n_ok >= 3))
    # Error::syntax stores what it is given
    fn = syntax[0]
    eng = C.make_engine(cx, [], loop_mode="unroll", unroll=1, timeout_s=60, max_paths=50)

    def h_box(e, st, fr, callee, argv, m):
        return Agg("struct", "Box", [argv[0]])
    eng.stubs = [(re.compile(r"^Box::<(?:parse::error::)?ErrorImpl>::new$"), h_box)] + S.CORE_STUBS
    info = {}

    def init2(e, st, fr):
        ev, c = K.sym_enum(e, "ErrorCode", "code")
        line, col = e.sym_int("usize", "line"), e.sym_int("usize", "col")
        fr.locals[fn.args[0]], fr.locals[fn.args[1]], fr.locals[fn.args[2]] = ev, line, col
        info.update(code=ev, line=line, col=col)
        return [c]
    terms = eng.explore(fn.name, init2)
    res.absorb(eng)
    ok = 0
    order = cx.structs.get("ErrorImpl")
    for t in terms:
        pc = list(t.state.pc)
        why = None
        try:
            impl = t.value.fields[0].fields[0]
            fields = dict(zip(order, impl.fields)) if order and len(order) == len(impl.fields) else {"code": impl.fields[0], "location": impl.fields[1]}
            code, loc = fields["code"], fields["location"]
            if not (isinstance(loc, EnumV) and K.concrete(loc.discr) == 1):
                why = "stores no location"
            else:
                l = loc.variants[1][0]
                lorder = cx.structs.get("Location") or ["line", "column"]
                lf = dict(zip(lorder, l.fields))
                res.must_be_unsat(pc + [z3.Or(lf["line"].e != info["line"].e, lf["column"].e != info["col"].e, code.discr != info["code"].discr)],
                                  "Error::syntax does not store the given code, line and column", onm)
                ok += 1
        except Exception as e:  # noqa
            why = "builds %r (%r)" % (t.value, e)
        if why:
            res.must_be_unsat(pc, "Error::syntax: " + why, onm)
    res.vacuity.append(("Error::syntax inspected", ok >= 1))


def claim_serde_error_impls(cx0, res, kf):
    from . import serde as SD
    cx = SD.merged_ctx()
    src = os.path.join(C.REPO, "serde-lexpr/src/error.rs")
    lines = open(src).read().split("\n")
    impl_lines = [i + 1 for i, l in enumerate(lines) if re.match(r"\s*impl\s+(?:serde::)?(de|ser)::Error\s+for\s+Error\b", l)]
    if len(impl_lines) < 2:
        res.error = "impl de::Error / ser::Error for Error not found in serde-lexpr/src/error.rs"
        return
    fns = [f for n, f in cx.fns.items() if any(("impl at serde-lexpr/src/error.rs:%d:" % ln) in n for ln in impl_lines) and "{closure" not in n]
    EI = cx.enums["ErrorImpl"]
    MSG = EI.index("Message")
    n_ok = 0
    for fn in fns:
        eng = C.make_engine(cx, [], loop_mode="unroll", unroll=1, timeout_s=60, max_paths=200)
        eng.find_fn = (lambda callee, fn=fn, base=eng.find_fn: ([f for n, f in cx.fns.items() if n == fn.name.rsplit("::", 1)[0] + "::custom"] or [None])[0]
                       if re.search(r"(^|<(?:error::)?Error as (?:serde::)?(?:de|ser)::Error>::|Error::)custom::<", callee) else base(callee))

        def h_box(e, st, fr, callee, argv, m):
            return Agg("struct", "Box", [argv[0]])

        def h_blob(e, st, fr, callee, argv, m):
            return Blob(callee.split("::<")[0])

        def h_io_new(e, st, fr, callee, argv, m):
            return Opaque("io::Error", "made here")

        def h_from_io(e, st, fr, callee, argv, m):
            IO = EI.index("Io")
            return Agg("struct", "Error", [Agg("struct", "Box", [EnumV("ErrorImpl", IO, {IO: [argv[0]]})])])
        eng.stubs = [(re.compile(r"^Box::<(?:error::)?ErrorImpl>::new$"), h_box),
                     (re.compile(r"^(?:std::io::|io::)?Error::new::<"), h_io_new),
                     (re.compile(r"^<(?:error::)?Error as From<(?:std::)?io::Error>>::from$"), h_from_io),
                     (re.compile(r"^(?:core::hint::|std::hint::)?must_use::<"), lambda e, st, fr, c, a, m: a[0]),
                     (re.compile(r"^(<.* as ToString>::to_string|Arguments::<'_>::|core::fmt::|std::fmt::|alloc::fmt::|format|<.* as Display>::|<.* as Into<.*>>::into|String::)"), h_blob),
                     ] + S.COMBINATOR_STUBS + S.CORE_STUBS

        def init(e, st, fr, fn=fn):
            for a in fn.args:
                ty = fn.local_ty.get(a, "").strip()
                if ty == "usize":
                    fr.locals[a] = e.sym_int("usize", "n")
                elif ty.startswith("&"):
                    fr.locals[a] = Ref(("V", Blob(ty)))
                else:
                    fr.locals[a] = Blob(ty)
            return []
        terms = eng.explore(fn.name, init)
        res.absorb(eng)
        short = fn.name.split("::")[-1]
        for t in terms:
            pc = list(t.state.pc)
            if t.kind == "PANIC":
                res.must_be_unsat(pc, "serde_lexpr::Error::%s: reachable panic" % short, None)
                continue
            if t.kind != "RETURN":
                continue
            why = None
            try:
                impl = t.value.fields[0].fields[0]
                d = K.concrete(impl.discr)
                if d != MSG:
                    why = "builds a %s error" % (EI[d] if d is not None else "symbolic-kind")
            except Exception:  # noqa
                why = "returns %r" % (t.value,)
            if why:
                res.must_be_unsat(pc, "serde_lexpr::Error::%s (a constructor serde calls for mismatching data) %s, which is not classified "
                                  "as Category::Data" % (short, why), None)
            else:
                n_ok += 1
    res.vacuity.append(("serde error constructors inspected", n_ok >= 3))


CLAIMS = [
    Claim("c19_error_constructors", "C19", "quick", claim_error_constructors,
          "Parser::error, Parser::peek_error and read::error give Error::syntax the error code they were given and the line AND column "
          "of exactly one position query on the input source (position() for a consumed byte, peek_position() for the peeked byte; no "
          "byte offset, no second query); Error::syntax stores exactly these three",
          "arbitrary error code, arbitrary positions", configs=("fast",), confirm=("locations",)),
    Claim("c18_error_impls", "C18", "quick", claim_serde_error_impls,
          "every method of `impl de::Error for Error` and `impl ser::Error for Error` in serde-lexpr (custom, invalid_type and any "
          "provided method that is overridden) builds a message error, the kind Error::classify maps to Category::Data",
          "all methods found in the current source, abstract messages", configs=("fast",), crate="serde-lexpr", confirm=("serde",)),
]
