"""E2: the primitive conversions into `Number` (C20, C04): `Number::from(x)` for every integer width and both float
widths stores exactly the mathematical value - PosInt(x) for x >= 0, NegInt(x) below, Float(x) with an f32 widened exactly -
by casts alone: a conversion that calls anything (formatting, parsing, rounding helpers) is reported."""
import re

import z3

from . import common as K
from . import ctx as C
from . import stubs as S
from .claims import Claim
from .symex import Agg, EnumV, F64, Int, Unsupported, INT_TY


def claim_number_from(cx, res, kf):
    from . import confirm as CF
    onm = CF.confirm(("numconv", "serde"), res)
    N = cx.enums.get("N")
    if not N:
        res.error = "enum N (number representation) not found"
        return
    fns = []
    for n, f in cx.fns.items():
        if "lexpr/src/number.rs" in n and re.search(r"::from(#\d+)?$", n) and len(f.args) == 1 and f.ret_ty.strip() == "Number":
            ty = f.local_ty.get(f.args[0], "").strip()
            if ty in INT_TY or ty in ("f32", "f64"):
                fns.append((ty, n, f))
    seen = set()
    for ty, key, fn in fns:
        eng = C.make_engine(cx, [], loop_mode="unroll", unroll=1, timeout_s=60, max_paths=200)
        eng.stubs = [(re.compile(r"^<f64 as From<f32>>::from$"), lambda e, st, fr, c, a, m: F64(z3.fpFPToFP(z3.RNE(), a[0].e, z3.Float64())))] + S.CORE_STUBS
        info = {}

        def init(e, st, fr, ty=ty, fn=fn):
            if ty == "f32":
                x = z3.FP("x_f32", z3.Float32())
                info["x"] = x
                fr.locals[fn.args[0]] = F64(x)
            elif ty == "f64":
                v = e.sym_f64("x")
                info["x"] = v.e
                fr.locals[fn.args[0]] = v
            else:
                v = e.sym_int(ty, "x")
                info["x"] = v.e
                fr.locals[fn.args[0]] = v
            return []
        try:
            terms = eng.explore(key, init)
        except (Unsupported, ImportError) as e:
            msg = str(e)
            if "call to" in msg:
                res.must_be_unsat([], "Number::from(%s) goes through %s instead of a value-preserving cast" % (ty, msg.split("call to", 1)[1].split("(")[0].strip()), onm)
                continue
            res.error = "unsupported: Number::from(%s): %s" % (ty, msg)
            return
        res.absorb(eng)
        for t in terms:
            pc = list(t.state.pc)
            if t.kind != "RETURN":
                res.must_be_unsat(pc, "Number::from(%s): ends in %s" % (ty, t.kind), onm)
                continue
            try:
                n = t.value.fields[0]
                d = K.concrete(n.discr)
                kind = N[d]
                pay = n.variants[d][0]
            except Exception:  # noqa
                res.must_be_unsat(pc, "Number::from(%s) returns %r" % (ty, t.value), onm)
                continue
            x = info["x"]
            seen.add(ty)
            if ty in ("f32", "f64"):
                want = z3.fpFPToFP(z3.RNE(), x, z3.Float64()) if ty == "f32" else x
                if kind != "Float":
                    res.must_be_unsat(pc, "Number::from(%s) stores a %s" % (ty, kind), onm)
                else:
                    res.must_be_unsat(pc + [z3.Not(z3.Or(z3.fpToIEEEBV(pay.e) == z3.fpToIEEEBV(want), z3.And(z3.fpIsNaN(pay.e), z3.fpIsNaN(want))))],
                                      "Number::from(%s) does not store exactly the given float" % ty, onm)
                continue
            w, signed = INT_TY[ty]
            wide = (z3.SignExt(64 - w, x) if signed else z3.ZeroExt(64 - w, x)) if w < 64 else x
            neg = (x < 0) if signed else z3.BoolVal(False)
            if kind == "PosInt":
                res.must_be_unsat(pc + [z3.Not(z3.And(z3.Not(neg), pay.e == wide))], "Number::from(%s): non-negative representation for a negative value / wrong magnitude" % ty, onm)
            elif kind == "NegInt":
                res.must_be_unsat(pc + [z3.Not(z3.And(neg, pay.e == wide))], "Number::from(%s): negative representation for a non-negative value / wrong value" % ty, onm)
            else:
                res.must_be_unsat(pc, "Number::from(%s) stores a %s" % (ty, kind), onm)
    res.vacuity.append(("Number::from inspected for 8 integer widths and 2 float widths", len(seen) + len([1 for v in res.violations]) >= 10 and len(fns) >= 10))


CLAIMS = [
    Claim("c20_number_from", "C20", "quick", claim_number_from,
          "Number::from(x) for u8..u64, i8..i64, f32, f64: PosInt(x) for x >= 0, NegInt(x) below, Float(x) with an f32 widened exactly - "
          "by casts alone (a conversion that calls formatting / parsing / rounding code is reported)",
          "every value of every width", configs=("fast",), also=("C04", "C14")),
]
